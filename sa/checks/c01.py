"""C01 — parsing is total: exception-freedom of everything reachable from the two
entry points (by raise class) + termination ranking.  See DESIGN.md §4 C01."""
import ast

from ..core import AnalysisError
from .. import e1_model as e1
from .. import e2_regex as e2
from ..e3_rules import get_engine, Shape, ts_value
from ..e3_values import *  # noqa
from ..e3_state import State
from ..e3_interp import Raised, PathLimit
from .common import (issue_key, grouped_runs, shapes_desc, report_undecided, rule_construct,
                     norm, calls_in, path_feasible)

# the one explicit raise that is documented API behaviour of the value class (asking
# an undated value for a datetime); it is reachable from the parser only through
# rules that require a date first — which is exactly what the obligations check.
ALLOWED_EXPLICIT = ()


def check(ctx, rep, tier):
    eng = get_engine(ctx)
    rep.describe("no-raise", "every path of the abstract interpretation of a production "
                 "(through rule.py's wrapper, on every parameter shape the rule-base "
                 "fixpoint can feed it) ends in a return; a path ending in a raise names "
                 "the raising construct and the shape that reaches it")
    rep.describe("latent-no-raise", "same for the latent post-processing layer on every "
                 "reachable shape")
    rep.describe("accessor-no-raise", "start/end of every emitted shape never raise")
    rep.describe("render", "every format field with a format spec in CTParse.__str__/"
                 "__repr__ is fed by a value no construction site can set to None")
    rep.describe("handler-premise", "the only exception handler between the entry points "
                 "and the productions catches the timeout exception only")
    rep.describe("termination", "rule application replaces k>=1 elements by one; unary "
                 "rules cannot feed each other in a cycle; sequence enumeration appends "
                 "strictly increasing indices")
    rep.describe("fallback", "the default-scorer loader returns a Scorer on both branches "
                 "of the model-file existence test")
    rep.describe("result-typing", "every CTParse construction passes a str subject and the "
                 "label helper's list")
    rep.describe("log-domain", "arguments of math.log in the scorers are quotients of "
                 "positive lengths")
    _rules(ctx, rep, eng)
    _latent(ctx, rep, eng)
    _accessors(ctx, rep, eng)
    _render(ctx, rep, eng)
    _handlers(ctx, rep)
    _termination(ctx, rep, eng)
    _fallback(ctx, rep)
    _typing(ctx, rep)
    _log_domain(ctx, rep)
    report_undecided(rep, eng)
    for (w_, c_, why_) in sorted(getattr(eng.interp, "cal_unknown", {}).values()):
        rep.undecided("no-raise", c_, w_, why_)
    rep.count("rules", len(ctx.rb.rules), 40)
    rep.count("rule_runs", len(eng.runs), 100)
    rep.count("paths", sum(len(r.paths) for r in eng.runs.values()), 500)
    rep.count("reachable_shapes", len(eng.R), 20)
    rep.assume("A2 dateutil model; A3 rrule(count=1)[0] exists; exceptions thrown from "
               "inside regex/dateutil internals and resource exhaustion are not analysed")
    rep.assume("reference time year in [1970, 2100] (the property's quantifier)")


def _rules(ctx, rep, eng):
    for (ri, name), runs in sorted(grouped_runs(eng).items()):
        rule = runs[0].rule
        bad = {}
        npaths = 0
        infeasible = 0
        unknown = {}
        for run in runs:
            for p in run.paths:
                npaths += 1
                if p.kind == "raise":
                    k = issue_key(rule, p.val.issue)
                    if k not in bad:
                        feas = path_feasible(eng, p)
                        if feas is None:
                            unknown.setdefault(k, (p.val, run))
                            continue
                        if not feas:
                            infeasible += 1
                            continue
                        bad[k] = (p.val, run)
        for k, (rv, run) in sorted(bad.items()):
            rep.violated("no-raise", k, rv.issue.where,
                         "{}: {}".format(rv.exc, rv.issue.detail),
                         witness={"rule": name, "parameter_shapes": shapes_desc(run),
                                  "exception": rv.exc, "chain": [c[1] for c in rv.issue.chain]})
        for k, (rv, run) in sorted(unknown.items()):
            if k not in bad:
                rep.undecided("no-raise", k, rv.issue.where,
                              "{}: {} on a path whose condition contains a test outside the "
                              "evaluator's model (feasibility not decided)".format(rv.exc, rv.issue.detail))
        if not bad and not unknown:
            rep.ok("no-raise", rule_construct(rule, "body"), rule.where,
                   "{} paths over {} shape combinations{}".format(
                       npaths, len(runs), " ({} raising paths infeasible)".format(infeasible) if infeasible else ""))
    # rules that never ran (no shape reaches them) are C19's business


def _latent(ctx, rep, eng):
    bad = {}
    unknown = {}
    n = 0
    for key, (shape, paths, err) in eng.latent.items():
        if err:
            rep.undecided("latent-no-raise", "apply_postprocessing_rules", "-", err)
        for p in paths:
            n += 1
            if p.kind == "raise" and p.val.issue.construct not in bad:
                feas = path_feasible(eng, p)
                if feas is None:
                    unknown.setdefault(p.val.issue.construct, p.val)
                elif feas:
                    bad[p.val.issue.construct] = (p.val, shape)
            for (where, construct, why) in p.undecided:
                rep.undecided("latent-no-raise", construct, where, why)
    for k, rv in sorted(unknown.items()):
        if k not in bad:
            rep.undecided("latent-no-raise", k, rv.issue.where,
                          "{}: {} on a path whose condition contains a test outside the evaluator's "
                          "model (feasibility not decided)".format(rv.exc, rv.issue.detail))
    for k, (rv, shape) in sorted(bad.items()):
        rep.violated("latent-no-raise", k, rv.issue.where, "{}: {}".format(rv.exc, rv.issue.detail),
                     witness={"shape": shape.describe()})
    if not bad and not unknown:
        rep.ok("latent-no-raise", "ctparse/time/postprocess_latent.py::apply_postprocessing_rules",
               "ctparse/time/postprocess_latent.py", "{} paths over {} shapes".format(n, len(eng.latent)))
    rep.count("latent_paths", n, 20)


def emitted_shapes(eng):
    """Everything that can be emitted: reachable shapes, plus latent-layer results."""
    out = []
    for key, sh in eng.R.items():
        out.append(("rule", sh))
    from ..e3_rules import shape_of
    for key, (shape, paths, err) in eng.latent.items():
        for p in paths:
            if p.kind == "ret" and isinstance(p.val, RefV):
                sh = shape_of(p.st, p.val)
                sh.sources = {"latent"}
                out.append(("latent", sh))
    return out


def _accessors(ctx, rep, eng):
    n = 0
    bad = {}
    seen = set()
    for origin, sh in emitted_shapes(eng):
        fp = sh.fingerprint()
        if fp in seen:
            continue
        seen.add(fp)
        if not (eng.interp.find_member(sh.cls, "start") and eng.interp.find_member(sh.cls, "end")):
            continue
        for attr in ("start", "end"):
            outs, err = eng.run_accessor(sh, attr)
            if err:
                rep.undecided("accessor-no-raise", sh.cls.name + "." + attr, "-", err)
            for s, v in outs:
                n += 1
                if isinstance(v, Raised):
                    k = "{} on shapes from {}".format(v.issue.construct, ",".join(sorted(sh.sources))[:120])
                    bad.setdefault(v.issue.construct, (v, sh))
    for k, (rv, sh) in sorted(bad.items()):
        rep.violated("accessor-no-raise", k, rv.issue.where, "{}: {}".format(rv.exc, rv.issue.detail),
                     witness={"shape": sh.describe(), "produced_by": sorted(sh.sources)})
    if not bad:
        rep.ok("accessor-no-raise", "ctparse/types.py::start/end", "ctparse/types.py",
               "{} accessor paths over {} emitted shapes".format(n, len(seen)))
    rep.count("accessor_paths", n, 40)


def _render(ctx, rep, eng):
    """Class 8: format specs applied to None in CTParse.__str__/__repr__."""
    cm = ctx.imod("ctparse.ctparse")
    cls = cm.classes.get("CTParse")
    if cls is None:
        raise AnalysisError("anchor vanished: class CTParse")
    init = cm.funcs.get("CTParse.__init__")
    if init is None:
        raise AnalysisError("anchor vanished: CTParse.__init__")
    params = [a.arg for a in init.args.args][1:]
    sites = []
    for mn, m in ctx.model.mods.items():
        if not mn.startswith("ctparse") or "corpus" in mn:
            continue
        for c in calls_in(m.tree, "CTParse"):
            sites.append((m, c))
    rep.count("CTParse_sites", len(sites), 2)
    ip = eng.interp
    cv = ClassV(cm, cls)
    for m, call in sites:
        # argument kinds: literal None vs anything else (unknown non-None value)
        vals = {}
        for i, a in enumerate(call.args):
            if i < len(params):
                vals[params[i]] = a
        for k in call.keywords:
            vals[k.arg] = k.value
        for meth in ("__str__", "__repr__"):
            mem = ip.find_member(cv, meth)
            if mem is None or mem[0] != "func" or mem[3] is not cls:
                continue
            st = State()
            st.frames.append({})
            args = []
            for p in params:
                a = vals.get(p)
                if a is None:
                    args.append(TopV("absent"))
                elif isinstance(a, ast.Constant) and a.value is None:
                    args.append(NONE)
                else:
                    args.append(TopV("non-None argument " + p))
            ip.cur_mod.append(cm)
            ip.cur_func.append("<render>")
            ip.cur_fnode.append(None)
            ip.paths = 0
            try:
                outs = ip.instantiate(st, cv, args, {}, call)
                res = []
                for s, ref in outs:
                    if isinstance(ref, Raised):
                        res.append((s, ref))
                        continue
                    fv = FuncV(mem[1], mem[2], bound_self=ref)
                    for s2, oc in ip.call_func(fv, [], {}, s, call):
                        res.append((s2, oc[1]))
            except PathLimit:
                rep.undecided("render", "CTParse." + meth, m.where(call), "path limit")
                continue
            finally:
                ip.cur_mod.pop()
                ip.cur_func.pop()
                ip.cur_fnode.pop()
            fn = getattr(getattr(call, "_parent", None), "lineno", 0)
            encl = _encl(call)
            construct = "{}::{}::CTParse({}) -> {}".format(
                m.rel, encl, ", ".join(norm(a) for a in call.args), meth)
            bad = [v for s, v in res if isinstance(v, Raised)]
            und = [u for s, v in res for u in s.undecided]
            if bad:
                rep.violated("render", construct, m.where(call),
                             "{}: {}".format(bad[0].exc, bad[0].issue.detail),
                             witness={"site": norm(call), "method": meth})
            elif und:
                rep.undecided("render", construct, m.where(call), und[0][2])
            else:
                rep.ok("render", construct, m.where(call))


def _encl(node):
    cur = getattr(node, "_parent", None)
    while cur is not None and not isinstance(cur, (ast.FunctionDef, ast.ClassDef)):
        cur = getattr(cur, "_parent", None)
    return getattr(cur, "_qual", getattr(cur, "name", "<module>")) if cur is not None else "<module>"


def _handlers(ctx, rep):
    cm = ctx.imod("ctparse.ctparse")
    n = 0
    for qual in ("ctparse", "ctparse_gen", "_ctparse", "_match_rule", "_match_regex",
                 "_regex_stack"):
        f = cm.funcs.get(qual)
        if f is None:
            if qual in ("ctparse", "ctparse_gen", "_ctparse"):
                raise AnalysisError("anchor vanished: ctparse.{}".format(qual))
            continue
        for t in ast.walk(f):
            if isinstance(t, ast.Try):
                for h in t.handlers:
                    n += 1
                    names = []
                    if h.type is None:
                        names = ["<bare>"]
                    elif isinstance(h.type, ast.Tuple):
                        names = [norm(e) for e in h.type.elts]
                    else:
                        names = [norm(h.type)]
                    ok = all(x.endswith("CTParseTimeoutError") for x in names)
                    rep.add("handler-premise", "{}::{}::except {}".format(cm.rel, qual, ",".join(names)),
                            cm.where(h), ok,
                            "" if ok else "a handler wider than the timeout exception changes "
                            "which raises escape; the exception-freedom argument no longer "
                            "describes this code", nontrivial=False)
                    reraise = [x for b in h.body for x in ast.walk(b) if isinstance(x, ast.Raise)]
                    rep.add("handler-premise", "{}::{}::timeout handler ends the stream".format(cm.rel, qual),
                            cm.where(h), not reraise,
                            "" if not reraise else "the timeout handler raises: an expired deadline "
                            "escapes from the parse call", nontrivial=False)
    pm = ctx.imod("ctparse.partial_parse")
    f = pm.funcs.get("PartialParse.apply_rule")
    if f is None:
        raise AnalysisError("anchor vanished: PartialParse.apply_rule")
    for t in ast.walk(f):
        if isinstance(t, ast.Try):
            rep.add("handler-premise", "{}::PartialParse.apply_rule::try".format(pm.rel), pm.where(t),
                    False, "rule application now swallows exceptions", nontrivial=False)
    rep.count("handlers", n, 1)


def _termination(ctx, rep, eng):
    pm = ctx.imod("ctparse.partial_parse")
    f = pm.func("PartialParse.apply_rule")
    # (i) the new production is prefix + (one element,) + suffix
    ok = None
    where = pm.where(f)
    # local names bound once (also element-wise: a, b = x, y) stand for their expressions
    defs = {}
    for a in ast.walk(f):
        if isinstance(a, ast.Assign) and len(a.targets) == 1:
            t = a.targets[0]
            if isinstance(t, ast.Name):
                defs.setdefault(t.id, []).append(a.value)
            elif isinstance(t, ast.Tuple) and isinstance(a.value, ast.Tuple) and len(t.elts) == len(a.value.elts):
                for tt, vv in zip(t.elts, a.value.elts):
                    if isinstance(tt, ast.Name):
                        defs.setdefault(tt.id, []).append(vv)

    def resolve(p, depth=0):
        while isinstance(p, ast.Name) and len(defs.get(p.id, [])) == 1 and depth < 4:
            p = defs[p.id][0]
            depth += 1
        return p
    for c in calls_in(f, "PartialParse"):
        for k in c.keywords:
            if k.arg == "prod":
                e = resolve(k.value)
                parts = [resolve(p) for p in _concat_parts(e)]
                singles = [p for p in parts if isinstance(p, ast.Tuple) and len(p.elts) == 1]
                slices = [p for p in parts if isinstance(p, ast.Subscript) and isinstance(p.slice, ast.Slice)]
                unknown = [p for p in parts if p not in singles and p not in slices]
                if unknown and all(isinstance(p, (ast.Name, ast.Call, ast.Attribute)) for p in unknown):
                    ok = None       # built from something this clause does not follow
                else:
                    ok = len(singles) == 1 and len(slices) == 2 and len(parts) == 3
                where = pm.where(c)
    if ok is None:
        rep.undecided("termination", pm.rel + "::PartialParse.apply_rule::window->one", where,
                      "the new production is not written as prefix + (result,) + suffix over slices; "
                      "not recognised")
    else:
        rep.add("termination", pm.rel + "::PartialParse.apply_rule::window->one", where, ok,
                "" if ok else "the production is no longer prefix + (result,) + suffix")
    # (ii) unary rules: acyclic feed graph
    unary = {r.name for r in ctx.rb.rules if len(r.pats) == 1 and r.pats[0].kind != "regex"}
    g = {}
    for (src, dst), idx in eng.feed.items():
        if src in unary and dst in unary:
            g.setdefault(src, set()).add(dst)
    cyc = _find_cycle(g)
    rep.add("termination", "unary-rule feed graph", "ctparse/time/rules.py", cyc is None,
            "acyclic over {} unary rules".format(len(unary)) if cyc is None
            else "unary rules can feed each other forever: " + " -> ".join(cyc),
            witness=cyc)
    rep.count("unary_rules", len(unary), 2)
    # (iii) rules with >= 1 pattern each (k >= 1)
    for r in ctx.rb.rules:
        if len(r.pats) < 1:
            rep.violated("termination", rule_construct(r, "patterns"), r.where,
                         "rule without patterns applies to the empty window forever")
    # (iv) _regex_stack appends s + (j,) with j drawn from range(i + 1, ...)
    cm = ctx.imod("ctparse.ctparse")
    f = cm.func("_regex_stack")
    ok = False
    for w in ast.walk(f):
        if isinstance(w, ast.While):
            for loop in ast.walk(w):
                # a for statement or a comprehension clause: both enumerate the extension indices
                if isinstance(loop, (ast.For, ast.comprehension)) and isinstance(loop.iter, ast.Call) and \
                        e1.callee_name(loop.iter.func) == "range" and len(loop.iter.args) >= 2:
                    lo = loop.iter.args[0]
                    if isinstance(lo, ast.BinOp) and isinstance(lo.op, ast.Add) and \
                            isinstance(lo.right, ast.Constant) and lo.right.value >= 1:
                        ok = True
    adj = None
    if not ok:
        adj = _adjacency_extension(f)
        if adj is True:
            ok = True
    if ok:
        rep.ok("termination", cm.rel + "::_regex_stack::strictly-increasing", cm.where(f))
    elif adj is False:
        rep.violated("termination", cm.rel + "::_regex_stack::strictly-increasing", cm.where(f),
                     "sequence enumeration no longer extends with strictly larger indices (the successor "
                     "table is filled with indices that are not larger)")
    else:
        # a range that starts at or below the last index is the violation; an enumeration written
        # some other way is not recognised
        ranges = [loop for w in ast.walk(f) if isinstance(w, ast.While) for loop in ast.walk(w)
                  if isinstance(loop, (ast.For, ast.comprehension)) and isinstance(loop.iter, ast.Call)
                  and e1.callee_name(loop.iter.func) == "range" and len(loop.iter.args) >= 2]
        if ranges:
            rep.violated("termination", cm.rel + "::_regex_stack::strictly-increasing", cm.where(f),
                         "sequence enumeration no longer extends with strictly larger indices")
        else:
            rep.undecided("termination", cm.rel + "::_regex_stack::strictly-increasing", cm.where(f),
                          "the enumeration of extensions is not a range over larger indices; not recognised")


def _adjacency_extension(f):
    """The extensions of a sequence are read from a table T[last index] (adjacency lists): True when
    every entry ever put into T[a] is drawn from range(a + c, ...) with c >= 1, False when one is
    drawn from a range that starts at or below a, None when the table is filled some other way."""
    tables = set()
    for w in ast.walk(f):
        if not isinstance(w, ast.While):
            continue
        local = {}
        for a in ast.walk(w):
            if isinstance(a, ast.Assign) and len(a.targets) == 1 and isinstance(a.targets[0], ast.Name):
                local.setdefault(a.targets[0].id, []).append(a.value)
        for loop in ast.walk(w):
            if isinstance(loop, (ast.For, ast.comprehension)):
                it = loop.iter
                if isinstance(it, ast.Name) and len(local.get(it.id, [])) == 1:
                    it = local[it.id][0]
                if isinstance(it, ast.Subscript) and isinstance(it.value, ast.Name):
                    tables.add(it.value.id)
    if not tables:
        return None
    verdict = None
    for t in tables:
        writes = 0
        for n in ast.walk(f):
            # T[a].append(b)
            if isinstance(n, ast.Call) and isinstance(n.func, ast.Attribute) and n.func.attr in ("append", "add") \
                    and isinstance(n.func.value, ast.Subscript) and isinstance(n.func.value.value, ast.Name) \
                    and n.func.value.value.id == t and len(n.args) == 1:
                writes += 1
                a_, b_ = n.func.value.slice, n.args[0]
                if not (isinstance(a_, ast.Name) and isinstance(b_, ast.Name)):
                    return None
                # the loop that draws b
                cur = getattr(n, "_parent", None)
                rng = None
                while cur is not None and cur is not f:
                    if isinstance(cur, ast.For) and isinstance(cur.target, ast.Name) and cur.target.id == b_.id:
                        rng = cur.iter
                        break
                    cur = getattr(cur, "_parent", None)
                if not (isinstance(rng, ast.Call) and e1.callee_name(rng.func) == "range" and len(rng.args) >= 2):
                    return None
                lo = rng.args[0]
                off = None      # range starts at a + off
                if isinstance(lo, ast.Name) and lo.id == a_.id:
                    off = 0
                elif isinstance(lo, ast.BinOp) and isinstance(lo.op, (ast.Add, ast.Sub)) and isinstance(lo.left, ast.Name) \
                        and lo.left.id == a_.id and isinstance(lo.right, ast.Constant) and isinstance(lo.right.value, int):
                    off = lo.right.value if isinstance(lo.op, ast.Add) else -lo.right.value
                elif isinstance(lo, ast.Constant) and lo.value == 0:
                    off = 0     # from the first index: not above a
                if off is None:
                    return None
                if off >= 1:
                    verdict = True if verdict is None else verdict
                else:
                    verdict = False
            # any other store into the table: T[x] = ..., T.append(...), T[x] += ...
            elif isinstance(n, (ast.Assign, ast.AugAssign)):
                tg = n.targets if isinstance(n, ast.Assign) else [n.target]
                for x in tg:
                    if isinstance(x, ast.Subscript) and isinstance(x.value, ast.Name) and x.value.id == t:
                        return None
            elif isinstance(n, ast.Call) and isinstance(n.func, ast.Attribute) and isinstance(n.func.value, ast.Name) \
                    and n.func.value.id == t and n.func.attr in ("append", "extend", "insert", "__setitem__"):
                return None
        # the table built in one go: T = [[j for j in range(i + c, ...) if ...] for i in range(...)]
        for n in ast.walk(f):
            if isinstance(n, ast.Assign) and len(n.targets) == 1 and isinstance(n.targets[0], ast.Name) \
                    and n.targets[0].id == t and isinstance(n.value, ast.ListComp) \
                    and isinstance(n.value.elt, ast.ListComp) and len(n.value.generators) == 1 \
                    and len(n.value.elt.generators) == 1:
                og, ig = n.value.generators[0], n.value.elt.generators[0]
                a_ = None
                if isinstance(og.iter, ast.Call) and e1.callee_name(og.iter.func) == "range" \
                        and isinstance(og.target, ast.Name) and len(og.iter.args) == 1:
                    a_ = og.target.id
                elif isinstance(og.iter, ast.Call) and e1.callee_name(og.iter.func) == "enumerate" \
                        and isinstance(og.target, ast.Tuple) and og.target.elts and isinstance(og.target.elts[0], ast.Name) \
                        and len(og.iter.args) == 1:
                    a_ = og.target.elts[0].id
                if a_ is None or not (isinstance(n.value.elt.elt, ast.Name) and isinstance(ig.target, ast.Name)
                                      and n.value.elt.elt.id == ig.target.id):
                    return None
                rng = ig.iter
                if not (isinstance(rng, ast.Call) and e1.callee_name(rng.func) == "range" and len(rng.args) >= 2):
                    return None
                lo = rng.args[0]
                off = None
                if isinstance(lo, ast.Name) and lo.id == a_:
                    off = 0
                elif isinstance(lo, ast.BinOp) and isinstance(lo.op, (ast.Add, ast.Sub)) and isinstance(lo.left, ast.Name) \
                        and lo.left.id == a_ and isinstance(lo.right, ast.Constant) and isinstance(lo.right.value, int):
                    off = lo.right.value if isinstance(lo.op, ast.Add) else -lo.right.value
                elif isinstance(lo, ast.Constant) and lo.value == 0:
                    off = 0
                if off is None:
                    return None
                writes += 1
                if off >= 1:
                    verdict = True if verdict is None else verdict
                else:
                    verdict = False
        if writes == 0:
            return None
    return verdict


def _concat_parts(e):
    if isinstance(e, ast.BinOp) and isinstance(e.op, ast.Add):
        return _concat_parts(e.left) + _concat_parts(e.right)
    return [e]


def _find_cycle(g):
    color = {}
    stack = []

    def dfs(u):
        color[u] = 1
        stack.append(u)
        for v in sorted(g.get(u, ())):
            if color.get(v) == 1:
                return stack[stack.index(v):] + [v]
            if color.get(v) is None:
                r = dfs(v)
                if r:
                    return r
        stack.pop()
        color[u] = 2
        return None
    for u in sorted(g):
        if color.get(u) is None:
            r = dfs(u)
            if r:
                return r
    return None


def _fallback(ctx, rep):
    lm = ctx.imod("ctparse.loader")
    f = lm.func("load_default_scorer")
    sm = ctx.imod("ctparse.scorer")
    scorers = {"Scorer"}
    bases = {}
    for mn in ("ctparse.scorer", "ctparse.nb_scorer"):
        m = ctx.imod(mn)
        for cn, c in m.classes.items():
            bases[cn] = {norm(b).split(".")[-1] for b in c.bases}
    changed = True
    while changed:          # subclasses of Scorer, directly or through intermediate classes
        changed = False
        for cn, bs in bases.items():
            if cn not in scorers and bs & scorers:
                scorers.add(cn)
                changed = True
    rets = [r for r in ast.walk(f) if isinstance(r, ast.Return)]
    rep.count("loader_returns", len(rets), 2)
    for r in rets:
        v = r.value
        ok = isinstance(v, ast.Call) and e1.callee_name(v.func) in scorers
        cons = "{}::load_default_scorer::return {}".format(lm.rel, norm(v) if v else "None")
        known_other = v is None or isinstance(v, ast.Constant) or (
            isinstance(v, ast.Call) and e1.callee_name(v.func) in bases and e1.callee_name(v.func) not in scorers)
        if ok or known_other:
            rep.add("fallback", cons, lm.where(r), ok, "" if ok else "does not return a Scorer instance",
                    nontrivial=False)
        else:
            rep.undecided("fallback", cons, lm.where(r), "the returned value is not recognised as a Scorer instance")
    has_test = any(isinstance(t, ast.If) and "exists" in norm(t.test) for t in ast.walk(f))
    rep.add("fallback", lm.rel + "::load_default_scorer::existence-test", lm.where(f), has_test,
            "" if has_test else "model file is opened without an existence test (missing file raises at import)")
    # open/load inside a try or after the exists test
    for c in calls_in(f):
        if e1.callee_name(c.func) in ("open", "load") and not _under_if(c, f):
            rep.violated("fallback", "{}::load_default_scorer::{}".format(lm.rel, norm(c)[:60]),
                         lm.where(c), "file access not guarded by the existence test")


def _under_if(node, f):
    cur = getattr(node, "_parent", None)
    while cur is not None and cur is not f:
        if isinstance(cur, (ast.If, ast.Try)):
            return True
        cur = getattr(cur, "_parent", None)
    return False


def _typing(ctx, rep):
    cm = ctx.imod("ctparse.ctparse")
    init = cm.func("CTParse.__init__")
    params = [a.arg for a in init.args.args][1:]
    for qual in ("ctparse", "_ctparse"):
        f = cm.func(qual)
        for c in calls_in(f, "CTParse"):
            vals = dict(zip(params, c.args))
            for k in c.keywords:
                vals[k.arg] = k.value
            subj, labels = vals.get("subject"), vals.get("labels")
            ok_s = subj is not None and _is_str_expr(f, subj, set())
            ok_l = labels is not None and _is_label_list(cm, f, labels)
            site = "{}::{}::CTParse(...)".format(cm.rel, qual)
            # only a value that is certainly of another kind is a violation; an expression this
            # clause cannot type is not decided
            if ok_s or _certainly_not(subj, str):
                rep.add("result-typing", site + " subject", cm.where(c), ok_s,
                        "" if ok_s else "subject argument {} is not a str".format(norm(subj) if subj else "-"))
            else:
                rep.undecided("result-typing", site + " subject", cm.where(c),
                              "subject argument {} is not recognised as a str expression".format(norm(subj)[:60]))
            if ok_l or _certainly_not(labels, list):
                rep.add("result-typing", site + " labels", cm.where(c), ok_l,
                        "" if ok_l else "labels argument {} is not a list of strings".format(
                            norm(labels) if labels else "-"))
            else:
                rep.undecided("result-typing", site + " labels", cm.where(c),
                              "labels argument {} is not recognised as the label helper's list".format(
                                  norm(labels)[:60]))


def _certainly_not(e, kind):
    """the expression is a literal of another kind (or missing)"""
    if e is None:
        return True
    if isinstance(e, ast.Constant):
        return not isinstance(e.value, kind)
    if kind is str:
        return isinstance(e, (ast.List, ast.Tuple, ast.Dict, ast.Set, ast.ListComp, ast.DictComp, ast.SetComp))
    if kind is list:
        return isinstance(e, (ast.Tuple, ast.Dict, ast.Set, ast.DictComp, ast.SetComp, ast.JoinedStr))
    return False


def _assignments(f, name, before=None):
    """Values assigned to *name* in f; with *before* (a line number) only the last
    assignment textually preceding it (straight-line reaching definition)."""
    out = []
    for n in ast.walk(f):
        if isinstance(n, ast.Assign):
            for t in n.targets:
                if isinstance(t, ast.Name) and t.id == name:
                    out.append(n)
    if before is not None:
        prev = [n for n in out if n.lineno < before]
        if prev:
            last = max(prev, key=lambda n: n.lineno)
            return [last.value]
    return [n.value for n in out]


def _is_str_expr(f, e, seen):
    if isinstance(e, ast.Constant):
        return isinstance(e.value, str)
    if isinstance(e, ast.JoinedStr):
        return True
    if isinstance(e, ast.Call):
        fn = e.func
        if isinstance(fn, ast.Attribute) and fn.attr in ("join", "strip", "lower", "replace",
                                                         "format", "lstrip", "rstrip", "sub"):
            return True
        if isinstance(fn, ast.Name) and fn.id in ("str", "cast", "_preprocess_string"):
            return True
        return False
    if isinstance(e, ast.Name):
        if e.id in seen:
            return True
        seen.add(e.id)
        a = _assignments(f, e.id, getattr(e, "lineno", None))
        params = {x.arg: x for x in f.args.args}
        if not a and e.id in params:
            return norm(params[e.id].annotation) == "str" if params[e.id].annotation else False
        # every assignment must be str-typed; a parameter annotated str is a str
        ok = all(_is_str_expr(f, v, seen) for v in a)
        if e.id in params:
            ok = ok and (params[e.id].annotation is not None and norm(params[e.id].annotation) == "str")
        return ok and bool(a)
    if isinstance(e, ast.BinOp) and isinstance(e.op, ast.Add):
        return _is_str_expr(f, e.left, seen) and _is_str_expr(f, e.right, seen)
    return False


def _is_label_list(cm, f, e):
    if isinstance(e, ast.Name):
        vals = _assignments(f, e.id)
        params = {x.arg: x for x in f.args.args + f.args.kwonlyargs}
        if not vals and e.id in params and params[e.id].annotation is not None:
            # a parameter declared as a list of strings (the labels handed in by the caller)
            return norm(params[e.id].annotation).replace("typing.", "") in ("List[str]", "list[str]")
        return bool(vals) and all(_is_label_list(cm, f, v) for v in vals)
    if isinstance(e, ast.Call) and isinstance(e.func, ast.Name):
        g = cm.funcs.get(e.func.id)
        if g is None:
            return False
        rets = [r.value for r in ast.walk(g) if isinstance(r, ast.Return)]
        return bool(rets) and all(_is_list_of_str(g, r) for r in rets)
    return isinstance(e, (ast.List, ast.ListComp))


def _is_list_of_str(g, e):
    if isinstance(e, ast.ListComp):
        return True
    if isinstance(e, ast.List):
        return True
    if isinstance(e, ast.Call) and e1.callee_name(e.func) in ("findall", "list", "sorted", "split"):
        return True
    if isinstance(e, ast.Name):
        vals = _assignments(g, e.id)
        return bool(vals) and all(_is_list_of_str(g, v) for v in vals)
    return False


def _log_domain(ctx, rep):
    nm = ctx.imod("ctparse.nb_scorer")
    n = 0
    for qual, f in nm.funcs.items():
        if qual in getattr(nm, "fully_inlined", ()):
            continue    # a helper that is analysed where it is called
        for c in calls_in(f, "log"):
            n += 1
            a = c.args[0] if c.args else None
            ok = False
            detail = ""
            if isinstance(a, ast.BinOp) and isinstance(a.op, ast.Div):
                num, den = a.left, a.right
                ok_den = norm(den).startswith("len(") and "txt" in norm(den)
                ok_num = _is_span_len(f, num, ctx)
                ok = ok_den and ok_num
                if not ok_den:
                    detail = "denominator {} is not the text length".format(norm(den))
                elif not ok_num:
                    detail = "numerator {} is not a span length".format(norm(num))
            else:
                detail = "argument {} is not a quotient of lengths".format(norm(a) if a is not None else "-")
            cons = "{}::{}::{}".format(nm.rel, qual, norm(c))
            if ok or _certainly_not_positive(f, a):
                rep.add("log-domain", cons, nm.where(c), ok, detail)
            else:
                # an argument this clause cannot classify is not a violation
                rep.undecided("log-domain", cons, nm.where(c), detail + " (not recognised)")
    rep.count("log_calls", n, 2)


def _certainly_not_positive(f, a):
    """log of a constant <= 0, of a difference of two equal things, of a count that starts at 0"""
    if a is None:
        return True
    if isinstance(a, ast.Constant):
        return not (isinstance(a.value, (int, float)) and a.value > 0)
    if isinstance(a, ast.BinOp) and isinstance(a.op, ast.Div):
        n = a.left
        if isinstance(n, ast.Constant):
            return not (isinstance(n.value, (int, float)) and n.value > 0)
        if isinstance(n, ast.BinOp) and isinstance(n.op, ast.Sub) and norm(n.left) == norm(n.right):
            return True
        # a difference of two lengths (other than end - start of a span) can be zero
        if isinstance(n, ast.BinOp) and isinstance(n.op, ast.Sub) and \
                all(isinstance(x, ast.Call) and e1.callee_name(x.func) == "len" for x in (n.left, n.right)):
            return True
    return False


def _is_span_len(f, e, ctx=None, depth=0):
    if isinstance(e, ast.Call) and e1.callee_name(e.func) == "len":
        return True
    if isinstance(e, ast.Call) and ctx is not None and depth < 3 and not e.args:
        # a package function / method that returns a span length
        nm_ = e1.callee_name(e.func)
        cands = []
        for mn, m in ctx.model.mods.items():
            if mn.startswith("ctparse"):
                cands.extend(fn for q, fn in m.funcs.items() if q == nm_ or q.endswith("." + str(nm_)))
        if len(cands) == 1:
            rets = [r.value for r in ast.walk(cands[0]) if isinstance(r, ast.Return) and r.value is not None]
            return bool(rets) and all(_is_span_len(cands[0], r, ctx, depth + 1) for r in rets)
    if isinstance(e, ast.Name):
        vals = _assignments(f, e.id)
        return bool(vals) and all(_is_span_len(f, v, ctx, depth) for v in vals)
    if isinstance(e, ast.BinOp) and isinstance(e.op, ast.Sub):
        return norm(e.left).endswith(".mend") and norm(e.right).endswith(".mstart")
    if isinstance(e, ast.Attribute) and e.attr == "max_covered_chars":
        return True
    return False
