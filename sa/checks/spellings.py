"""Listed spellings are matched whole.

A named group of a rule pattern that lists spellings (a finite language of words: month names,
weekdays, number words, units, markers) is meant to match any of them as a word.  With ordered
alternatives the engine can stop early: `sep\\.?|sept\\.?` matches 'sep' in 'sept' and leaves the
't' behind, unless what follows the group forces it to backtrack.  For every such word w the
pattern is matched, in the engine's priority order (e2.preferred_match), against a text made of a
synthesised context for what precedes the group, w and a blank; the group must take part with all
of w.  Decided on the pattern alone; no library code runs.
"""
from ..core import Undecided
from .. import e2_regex as e2


def _example(n, P, depth=0):
    """a short string the node can match (not checked here; the caller verifies by matching)"""
    if depth > 30:
        return ""
    k = n.kind
    if k == "char":
        for ch in "1a .:-/h":
            if n.cs.contains(ord(ch)):
                return ch
        for cp in range(33, 127):
            if n.cs.contains(cp):
                return chr(cp)
        return ""
    if k == "seq":
        return "".join(_example(c, P, depth + 1) for c in n.items)
    if k == "alt":
        return _example(n.items[0], P, depth + 1)
    if k in ("group", "atomic"):
        return _example(n.child, P, depth + 1)
    if k == "call":
        g = P.by_idx.get(n.idx)
        return _example(g.child, P, depth + 1) if g is not None else ""
    if k == "rep":
        return _example(n.child, P, depth + 1) * n.lo
    return ""


def _path_to(root, target):
    path = []

    def find(n, trail):
        if n is target:
            path.extend(trail)
            return True
        for i, ch in enumerate(n.children()):
            if find(ch, trail + [(n, i)]):
                return True
        return False
    return path if find(root, []) else None


def _prefix_example(P, target):
    """text for everything that has to be matched before the target group"""
    path = _path_to(P.id_group.child, target)
    if path is None:
        return None
    out = ""
    for parent, idx in path:
        if parent.kind == "seq":
            out += "".join(_example(c, P) for c in parent.items[:idx])
    return out


def word_groups(P, max_words=80):
    """named groups whose language is a finite set of alphabetic spellings: {name: words}"""
    out = {}
    for name in P.groups:
        if name.startswith(("R", "_")):
            continue
        g = P.group(name)
        if g is None:
            continue
        try:
            L = e2.enumerate_language(g.child, P, limit=max_words)
        except Undecided:
            continue
        if not L or len(L) > max_words:
            continue
        words = sorted(w for w in L if w)
        if not words or not all(all(ch.isalpha() or ch in ".'" for ch in w) and any(ch.isalpha() for ch in w) for w in words):
            continue
        # a wrapper group around other word groups adds nothing
        out[name] = words
    return out


def shadowed_words(P, budget=150000):
    """[(group, word, matched part, text)] for listed spellings the preferred match cuts short;
    also the number of (group, word) pairs that could be evaluated"""
    bad = []
    n = 0
    groups = word_groups(P)
    for name, words in sorted(groups.items()):
        target = P.group(name)
        prefix = _prefix_example(P, target)
        if prefix is None:
            continue
        for w in words:
            text = prefix + w + " "
            try:
                r = e2.preferred_match(P, text, 0, node=P.id_group, budget=budget)
            except Undecided:
                continue
            if r is None:
                continue      # the synthesised context does not fit (lookarounds, conditions): no verdict
            caps = r[1]
            if name not in caps:
                continue      # another group took the word: not this group's business
            a, b = caps[name]
            if a != len(prefix):
                continue
            n += 1
            got = text[a:b]
            if got != w and w.startswith(got) and len(got) < len(w):
                rest = w[len(got):]
                # only a word cut inside its letters counts (a trailing dot left behind is harmless
                # only if the dot is optional in the text; keep to letters)
                if rest[:1].isalpha():
                    bad.append((name, w, got, text))
    return bad, n


def check(ctx, rep, clause, group_filter=None, floor=None):
    """one obligation per rule pattern that has listed spellings (optionally only the groups
    accepted by *group_filter*)"""
    from .common import rule_construct
    rep.describe(clause, "every spelling listed in a named group of a rule pattern is matched as a whole "
                 "when it stands as a word: in the engine's priority order (leftmost alternative first, "
                 "greedy repetition) the match of '<context><spelling> ' gives the group all of the "
                 "spelling, i.e. no earlier alternative that is a prefix of it wins")
    n_rules = 0
    n_words = 0
    seen = {}
    for r in ctx.rb.rules:
        for i, p in enumerate(r.pats):
            if p.kind != "regex":
                continue
            try:
                _, P = ctx.wrapped(p.value)
                if p.value not in seen:
                    seen[p.value] = shadowed_words(P)
                bad, n = seen[p.value]
            except Undecided as e:
                rep.undecided(clause, rule_construct(r, "pattern[{}] spellings".format(i)), r.where, str(e))
                continue
            if group_filter is not None:
                names = {g for g in word_groups(P) if group_filter(g)}
                if not names:
                    continue
                bad = [b for b in bad if b[0] in names]
            elif n == 0:
                continue
            n_rules += 1
            n_words += n
            det = ""
            if bad:
                g, w, got, text = bad[0]
                det = "in {!r} the pattern matches only {!r} of the listed spelling {!r} (group {}): an earlier " \
                      "alternative that is a prefix of it wins".format(text, got, w, g)
            rep.add(clause, rule_construct(r, "pattern[{}] spellings".format(i)), r.where, not bad, det,
                    witness=None if not bad else {"group": bad[0][0], "spelling": bad[0][1], "matched": bad[0][2],
                                                  "text": bad[0][3]})
    rep.count(clause.replace("-", "_") + "_rules", n_rules, floor)
    return n_rules
