#!/venv/bin/python
"""Entry point: run.py <PROPERTY> [--tier quick|thorough] [--repo DIR]
             run.py --replay <replay.json>

Exit 0: every obligation discharged (or a listed known finding);
exit 1: VIOLATION property=<id> replay=<path>;
exit 2: ANALYSIS-ERROR / UNDECIDED / SELFTEST-FAIL (the analysis could not complete).
"""
import importlib
import json
import os
import sys
import time
import traceback

HERE = os.path.dirname(os.path.abspath(__file__))
sys.path.insert(0, os.path.dirname(HERE))

from sa import core  # noqa: E402
from sa.ctx import Ctx  # noqa: E402

PROPS = ["C01", "C02", "C03", "C04", "C05", "C06", "C07", "C08", "C09", "C10", "C11", "C12",
         "C13", "C14", "C15", "C17", "C18", "C19", "C20"]


def run_check(prop, root, tier="quick"):
    """Run one property's checker on the tree at *root*; returns the Report."""
    ctx = Ctx(root)
    mod = importlib.import_module("sa.checks." + prop.lower())
    rep = core.Report(prop)
    rep.ctx = ctx
    rep.engine_free = set(getattr(mod, "ENGINE_FREE", ()))
    rep.idiom_exempt = set(getattr(mod, "IDIOM_GUARD_EXEMPT", ()))
    rep.needs_all_runs = set(getattr(mod, "NEEDS_ALL_RUNS", ()))
    try:
        mod.check(ctx, rep, tier)
    except core.AnalysisError as e:
        # obligations decided before the analysis gave up are kept: a violation of a clause that
        # reports a construct it found (IDIOM_GUARD_EXEMPT) stands; every other provisional
        # verdict is withheld, because the guards below and later passes of the check did not run
        try:
            rep.engine_guard()
            rep.idiom_guard()
        except Exception:
            rep.idiom_exempt = set()
        for o in rep.obs:
            if o.status == core.VIOLATED and o.rule not in rep.idiom_exempt:
                o.status = core.UNDECIDED
                o.detail = "verdict withheld, the analysis ended early; candidate: " + o.detail
                o.witness = None
        e.partial = rep
        raise
    rep.engine_guard()
    rep.idiom_guard()
    return rep


def main(argv):
    t0 = time.time()
    args = list(argv)
    tier = os.environ.get("VERIF_TIER", "quick")
    root = core.DEFAULT_REPO
    prop = None
    replay = None
    scratch = False
    i = 0
    while i < len(args):
        a = args[i]
        if a == "--tier":
            tier = args[i + 1]
            i += 2
        elif a == "--repo":
            root = args[i + 1]
            i += 2
        elif a == "--replay":
            replay = args[i + 1]
            i += 2
        elif a == "--scratch":
            # analysing a scratch copy: do not touch the committed evidence / replay files
            scratch = True
            i += 1
        else:
            prop = a
            i += 1
    if replay:
        with open(replay, encoding="utf-8") as fd:
            r = json.load(fd)
        prop = r["property"]
        only = (r["obligation"]["rule"], r["obligation"]["construct"])
    else:
        only = None
    if prop not in PROPS:
        print("ANALYSIS-ERROR unknown property {}".format(prop))
        return 2
    if tier not in ("quick", "thorough"):
        tier = "quick"
    errors = []
    rep = core.Report(prop)
    selftest = None
    try:
        rep = run_check(prop, root, tier)
        if tier == "thorough" and only is None:
            from sa import selftest as st
            selftest = st.run(prop, root)
    except core.AnalysisError as e:
        errors.append(str(e))
        rep = getattr(e, "partial", rep)
    except Exception as e:  # a traceback must not look like a violation
        errors.append("internal error: {}: {}".format(type(e).__name__, e))
        traceback.print_exc(file=sys.stdout)
    leaked = [m for m in sys.modules if m == "ctparse" or m.startswith("ctparse.")]
    if leaked:
        errors.append("analysed package was imported: {}".format(leaked[:3]))
    if only is not None:
        hits = [o for o in rep.obs if (o.rule, o.construct) == only]
        for o in hits:
            print(o.line())
            if o.witness is not None:
                print("  witness:", json.dumps(o.witness, ensure_ascii=False, default=str))
        if not hits:
            print("obligation no longer present")
        bad = [o for o in hits if o.status == core.VIOLATED]
        if bad:
            print("VIOLATION property={} replay={}".format(prop, replay))
            return 1
        return 0 if not errors else 2
    code = core.finish(rep, tier, t0, selftest=selftest, analysis_errors=errors,
                       write_evidence=not scratch, write_replay=not scratch)
    return code


if __name__ == "__main__":
    try:
        rc = main(sys.argv[1:])
    except SystemExit:
        raise
    except BaseException as e:  # noqa
        print("ANALYSIS-ERROR internal: {}: {}".format(type(e).__name__, e))
        rc = 2
    sys.stdout.flush()
    os._exit(rc)
