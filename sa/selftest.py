"""Checker self-validation by seeded variants (thorough tier).

Each variant is one small edit of the *current* tree applied to a scratch copy of
/repo/ctparse under a fresh temporary directory (removed right after use).  A
breaking variant must make the property's checker report a VIOLATED obligation whose
construct mentions the edited function; a benign twin must stay silent.  A miss or a
false alarm is a defect of the checker: SELFTEST-FAIL, exit 2 — never VIOLATION.
"""
import os
import shutil
import sys
import tempfile
from concurrent.futures import ProcessPoolExecutor

from . import core
from .variants import VARIANTS


def _seed_variants(prop):
    """The sub-agents' confirmed changes kept under /verif/seeded as regression variants: a
    breaking change this property's check reported must still be reported; a behaviour-preserving
    refactoring must leave every check silent."""
    import glob
    import json
    out = []
    base = os.path.join(core.VERIF, "seeded")
    for meta in sorted(glob.glob(os.path.join(base, "*", "meta.json"))):
        d = os.path.dirname(meta)
        try:
            with open(meta, encoding="utf-8") as fd:
                m = json.load(fd)
        except (OSError, ValueError):
            continue
        if m.get("confirmed") and prop in (m.get("checks_reporting_violation") or []):
            out.append({"name": "seed-" + os.path.basename(d), "props": [prop], "patch": os.path.join(d, "patch.diff"),
                        "expect": "fire", "names": None, "file": None, "edits": []})
    for meta in sorted(glob.glob(os.path.join(base, "benign", "*", "meta.json"))):
        d = os.path.dirname(meta)
        try:
            with open(meta, encoding="utf-8") as fd:
                m = json.load(fd)
        except (OSError, ValueError):
            continue
        # relevant to this property: written against it, or this property's check raised an alarm
        # on it before the machinery was corrected (first pass); VERIF_SEEDED=all takes every one
        fp = m.get("first_pass") or {}
        relevant = m.get("property") == prop or prop in (fp.get("alarms") or [])
        if os.environ.get("VERIF_SEEDED") == "all":
            relevant = True
        if m.get("confirmed_benign") and relevant:
            out.append({"name": "refactor-" + os.path.basename(d), "props": [prop],
                        "patch": os.path.join(d, "patch.diff"), "expect": "silent", "names": None,
                        "file": None, "edits": []})
    return out


def _apply_patch(root, patch):
    import subprocess
    try:
        r = subprocess.run(["git", "apply", "--whitespace=nowarn", patch], cwd=root,
                           stdout=subprocess.PIPE, stderr=subprocess.PIPE, timeout=60,
                           env=dict(os.environ, GIT_CEILING_DIRECTORIES=os.path.dirname(root)))
    except (OSError, subprocess.SubprocessError):
        return False
    return r.returncode == 0


def _apply(root, variant):
    if variant.get("patch"):
        return _apply_patch(root, variant["patch"])
    path = os.path.join(root, variant["file"])
    if not os.path.exists(path):
        return False
    with open(path, encoding="utf-8") as fd:
        src = fd.read()
    edits = variant["edits"]
    for old, new in edits:
        if src.count(old) < 1:
            return False
        src = src.replace(old, new, 1)
    with open(path, "w", encoding="utf-8") as fd:
        fd.write(src)
    return True


def _run_variant(args):
    prop, root, variant = args
    tmp = tempfile.mkdtemp(prefix="sa_variant_")
    try:
        for sub in ("ctparse", "scripts"):
            src = os.path.join(root, sub)
            if os.path.isdir(src):
                shutil.copytree(src, os.path.join(tmp, sub),
                                ignore=shutil.ignore_patterns("__pycache__"))
        if not _apply(tmp, variant):
            return (variant["name"], "skipped", "edit does not apply")
        import ast
        try:
            if variant.get("file"):
                with open(os.path.join(tmp, variant["file"]), encoding="utf-8") as fd:
                    ast.parse(fd.read())
        except SyntaxError as e:
            return (variant["name"], "skipped", "variant does not parse: {}".format(e))
        from .run import run_check
        try:
            rep = run_check(prop, tmp)
        except core.AnalysisError as e:
            part = getattr(e, "partial", None)
            pv = [o for o in (part.obs if part is not None else []) if o.status == core.VIOLATED]
            if pv:
                # violations found before the analysis gave up stand (run.py exits 1 on them)
                rep = part
            elif variant["name"].startswith("refactor-"):
                return (variant["name"], "ok", "no verdict: analysis error: {}".format(e)[:200])
            else:
                return (variant["name"], "error", "analysis error: {}".format(e))
        except Exception as e:
            if variant["name"].startswith("refactor-"):
                return (variant["name"], "ok", "no verdict: {}: {}".format(type(e).__name__, e)[:200])
            return (variant["name"], "error", "{}: {}".format(type(e).__name__, e))
        known, _ = core.load_known_findings()
        kk = {(k["property"], k["rule"], k["construct"]) for k in known}
        viol = [o for o in rep.obs if o.status == core.VIOLATED and o.key() not in kk]
        und = [o for o in rep.obs if o.status == core.UNDECIDED]
        floors = rep.floor_failures()
        if variant["expect"] == "fire":
            must = variant.get("names")
            hit = [o for o in viol if must is None or must in o.construct or must in o.detail or must in o.rule]
            if hit:
                return (variant["name"], "ok", hit[0].line()[:200])
            if viol:
                return (variant["name"], "fail",
                        "fired, but not on the edited construct: " + viol[0].line()[:160])
            if und or floors:
                return (variant["name"], "fail", "breaking variant only gives UNDECIDED: " +
                        (und[0].line()[:160] if und else str(floors[0])))
            return (variant["name"], "fail", "breaking variant not detected")
        else:
            if viol:
                return (variant["name"], "fail", "benign twin flagged: " + viol[0].line()[:200])
            if (und or floors) and variant["name"].startswith("refactor-"):
                # a sub-agent's refactoring: what must not happen is an alarm; constructs outside the
                # analysed subset end without a verdict (exit 2 on that tree), which is recorded
                return (variant["name"], "ok", "no verdict: " + (und[0].line()[:140] if und else str(floors[0])))
            if und or floors:
                return (variant["name"], "fail", "benign twin undecided: " +
                        (und[0].line()[:160] if und else str(floors[0])))
            return (variant["name"], "ok", "silent")
    finally:
        shutil.rmtree(tmp, ignore_errors=True)


def run(prop, root, names=None, jobs=None):
    vs = [v for v in VARIANTS if prop in v["props"]]
    n_own = len(vs)
    if os.environ.get("VERIF_SEEDED", "1") != "0":
        vs = vs + _seed_variants(prop)
    if names:
        vs = [v for v in vs if v["name"] in names]
    seed = int(os.environ.get("VERIF_SEED", "0") or 0)
    if seed:
        import random
        random.Random(seed).shuffle(vs)
    jobs = jobs or min(16, max(1, len(vs)))
    results = []
    if vs:
        with ProcessPoolExecutor(max_workers=jobs) as ex:
            results = list(ex.map(_run_variant, [(prop, root, v) for v in vs]))
    failures = ["{}: {}".format(n, d) for n, st, d in results if st in ("fail", "error")]
    skipped = [n for n, st, d in results if st == "skipped"]
    applied = len(results) - len(skipped)
    own_skipped = [n for n in skipped if not n.startswith(("seed-", "refactor-"))]
    if n_own and not names and (n_own - len(own_skipped)) * 2 < n_own:
        failures.append("fewer than half of the {} variants apply ({} skipped)".format(
            len(vs), len(skipped)))
    return {"variants": len(vs), "applied": applied, "skipped": skipped,
            "breaking_detected": sum(1 for n, st, d in results if st == "ok" and
                                     _expect(vs, n) == "fire"),
            "benign_silent": sum(1 for n, st, d in results if st == "ok" and
                                 _expect(vs, n) == "silent"),
            "failures": failures,
            "details": {n: (st, d) for n, st, d in results}}


def _expect(vs, name):
    for v in vs:
        if v["name"] == name:
            return v["expect"]
    return None


if __name__ == "__main__":
    prop = sys.argv[1]
    names = sys.argv[2:] or None
    res = run(prop, core.DEFAULT_REPO, names)
    for n, (st, d) in sorted(res["details"].items()):
        print("{:8s} {:40s} {}".format(st, n, d))
    print({k: v for k, v in res.items() if k != "details"})
