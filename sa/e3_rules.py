"""E3 driver — whole-rule-base fixpoint over abstract shapes.

For every production the wrapper installed by rule.py is interpreted on every
combination of parameter shapes that can reach it; results are joined per shape key
(class, presence vector, calendar flag) until stable.  The latent layer is applied
as a final layer.  Output: per-rule path results (for the property checks), the
reachable/emitted shape set, and the rule-to-rule feed graph.
"""
import ast
import itertools

from .core import AnalysisError
from . import e1_model as e1
from . import e2_regex as e2
from .e3_values import *   # noqa
from .e3_values import INF
from .e3_state import State
from .e3_interp import Raised, PathLimit, join_vals
from .e3_exec import Interp

SPAN_FIELDS = ("mstart", "mend")
MAX_ROUNDS = 12
MAX_STR_SET = 600


class Shape:
    """Value-level summary of an abstract object, detached from any state."""

    def __init__(self, cls, attrs, cal=None):
        self.cls = cls              # ClassV
        self.attrs = attrs          # field -> Val | Shape
        self.cal = cal
        self.sources = set()        # rules that produced it

    def key(self):
        parts = []
        for f in sorted(self.attrs):
            if f in SPAN_FIELDS or f.startswith("_"):
                continue
            v = self.attrs[f]
            if isinstance(v, Shape):
                parts.append((f, v.key()))
            elif isinstance(v, UnionV):
                parts.append((f, "union"))
            else:
                parts.append((f, v.kind))
        return (self.cls.name, tuple(parts), self.cal)

    def presence(self):
        return frozenset(f for f, v in self.attrs.items()
                         if not f.startswith("_") and f not in SPAN_FIELDS
                         and not isinstance(v, NoneV))

    def fingerprint(self):
        parts = []
        for f in sorted(self.attrs):
            v = self.attrs[f]
            if isinstance(v, Shape):
                parts.append((f, v.fingerprint()))
            elif isinstance(v, IntV):
                parts.append((f, v.lo, v.hi))
            elif isinstance(v, StrV):
                parts.append((f, None if v.vals is None else tuple(sorted(v.vals))))
            elif isinstance(v, EnumV):
                parts.append((f, tuple(sorted(v.names))))
            else:
                parts.append((f, v.kind))
        return (self.cls.name, tuple(parts), self.cal)

    def describe(self):
        parts = []
        for f in sorted(self.attrs):
            if f.startswith("_") or f in SPAN_FIELDS:
                continue
            v = self.attrs[f]
            if isinstance(v, NoneV):
                continue
            if isinstance(v, Shape):
                parts.append("{}={}".format(f, v.describe()))
            else:
                parts.append("{}={!r}".format(f, v))
        s = "{}({})".format(self.cls.name, ", ".join(parts))
        if self.cal:
            s += "/" + self.cal
        return s


def join_shapes(a, b):
    attrs = {}
    for f in set(a.attrs) | set(b.attrs):
        va, vb = a.attrs.get(f), b.attrs.get(f)
        if va is None or vb is None:
            attrs[f] = va if vb is None else vb
        elif isinstance(va, Shape) and isinstance(vb, Shape):
            attrs[f] = join_shapes(va, vb)
        elif isinstance(va, Shape) or isinstance(vb, Shape):
            attrs[f] = va
        else:
            j = join_vals([va, vb])
            if isinstance(j, StrV) and j.vals is not None and (
                    len(j.vals) > MAX_STR_SET or any(len(x) > 80 for x in j.vals)):
                j = StrV(None, sym=("widened",))
            attrs[f] = j
    s = Shape(a.cls, attrs, a.cal)
    s.sources = a.sources | b.sources
    return s


def shape_of(st, ref, depth=0):
    obj = st.heap[ref.oid]
    attrs = {}
    for f, v in obj.attrs.items():
        if f == "__pattern__":
            continue
        if isinstance(v, RefV) and depth < 3:
            attrs[f] = shape_of(st, v, depth + 1)
        elif isinstance(v, UnionV):
            attrs[f] = v
        else:
            attrs[f] = _strip(v)
    return Shape(obj.cls, attrs, obj.cal)


def _strip(v):
    if isinstance(v, IntV):
        return IntV(v.lo, v.hi, ("shape",))
    if isinstance(v, StrV):
        return StrV(v.vals, sym=("shape",), nonempty=v.nonempty)
    if isinstance(v, EnumV):
        return EnumV(v.cls, v.names, sym=("shape",))
    if isinstance(v, TupleV):
        return TupleV([_strip(x) for x in v.items], v.is_list)
    return v


class PathResult:
    def __init__(self, st, oc):
        self.st = st
        self.kind = oc[0]           # 'ret' | 'raise'
        self.val = oc[1]
        self.conds = st.conds
        self.effects = st.effects
        self.undecided = st.undecided

    def is_none(self):
        return self.kind == "ret" and isinstance(self.val, NoneV)


class RuleRun:
    def __init__(self, rule, shapes, paths, error=None):
        self.rule = rule
        self.shapes = shapes
        self.paths = paths
        self.error = error


class Engine:
    def __init__(self, ctx):
        self.ctx = ctx
        self.model = ctx.model
        self.rb = ctx.rb
        self.interp = Interp(ctx)
        self.interp.on_construct = _on_construct
        self.interp.construct_log = []
        self.R = {}             # key -> Shape
        self.consulted = False  # did a check read the rule-base results (runs / latent layer)?
        self.incomplete = []    # idioms outside the analysed subset met while building them
        self.partial = []       # runs cut short (paths missing, none spurious)
        self._runs = {}         # (rule name, index, shape keys) -> RuleRun
        self.fired = {}         # rule name -> number of non-None results
        self.feed = {}          # (producer rule, consumer rule)
        self._latent = {}       # key -> list of (shape, PathResult list)
        self.errors = []
        self._pred_cache = {}
        self.types_mod = self.model.mod("ctparse.types")
        self.rounds = 0

    # the rule-base results; reading them marks the engine as consulted (core.Report
    # withholds VIOLATED verdicts drawn from an incomplete rule-base analysis)
    @property
    def runs(self):
        self.consulted = True
        return self._runs

    @runs.setter
    def runs(self, v):
        self._runs = v

    @property
    def latent(self):
        self.consulted = True
        return self._latent

    @property
    def construct_log(self):
        """(site, where, class, attrs, calendar flag, root) for every construction met"""
        self.consulted = True
        return self.interp.construct_log

    @property
    def R(self):
        self.consulted = True
        return self._R

    @R.setter
    def R(self, v):
        self._R = v

    # ------------------------------------------------------------------
    def class_v(self, name):
        for mn in ("ctparse.types",):
            env = self.model.env(mn)
            v = env.get(name)
            if isinstance(v, e1.ClassRef):
                return ClassV(v.mod, v.node)
        raise AnalysisError("anchor vanished: class {} in ctparse/types.py".format(name))

    def materialise(self, st, shape, sym, fresh=False):
        obj = st.new_obj(shape.cls, sym=sym, fresh=fresh)
        obj.cal = shape.cal
        for f, v in shape.attrs.items():
            if isinstance(v, Shape):
                obj.attrs[f] = self.materialise(st, v, ("attr", sym, f), fresh)
            elif f in SPAN_FIELDS:
                obj.attrs[f] = IntV(0, INF, ("attr", sym, f))
            elif isinstance(v, IntV):
                obj.attrs[f] = IntV(v.lo, v.hi, ("attr", sym, f))
            elif isinstance(v, StrV):
                obj.attrs[f] = StrV(v.vals, sym=("attr", sym, f), nonempty=v.nonempty)
            elif isinstance(v, EnumV):
                obj.attrs[f] = EnumV(v.cls, v.names, sym=("attr", sym, f))
            else:
                obj.attrs[f] = v
        return RefV(obj.oid)

    def regex_match_obj(self, st, pat, sym):
        cv = self.class_v("RegexMatch")
        obj = st.new_obj(cv, sym=sym, fresh=False)
        obj.attrs["id"] = IntV(pat.rid, pat.rid)
        obj.attrs["key"] = StrV({"R{}".format(pat.rid)})
        obj.attrs["mstart"] = IntV(0, INF, ("attr", sym, "mstart"))
        obj.attrs["mend"] = IntV(1, INF, ("attr", sym, "mend"))
        obj.attrs["_text"] = StrV(None, sym=("attr", sym, "_text"), nonempty=True)
        obj.attrs["_attrs"] = TupleV([StrV({"mstart"}), StrV({"mend"}), StrV({"id"})], True)
        obj.attrs["match"] = MatchV(obj.oid)
        obj.attrs["__pattern__"] = StrV({pat.value})
        return RefV(obj.oid)

    # ------------------------------------------------------------------
    def candidates(self, pat):
        """Shapes (refined) that satisfy a predicate/dimension pattern."""
        if pat.kind == "regex":
            return [None]
        out = []
        for key, shape in list(self.R.items()):
            ck = (key, shape.fingerprint(), pat.kind, pat.value)
            if ck not in self._pred_cache:
                self._pred_cache[ck] = self._filter(shape, pat)
            out.extend(self._pred_cache[ck])
        return out

    def _filter(self, shape, pat):
        ip = self.interp
        st = State()
        st.frames.append({})
        ref = self.materialise(st, shape, ("cand",))
        ip.cur_mod.append(self.types_mod)
        ip.cur_func.append("<predicate>")
        ip.cur_fnode.append(None)
        res = []
        try:
            ip.paths = 0
            if pat.kind == "dim":
                if ip.is_subclass(shape.cls, pat.value):
                    res.append(shape)
                return res
            node = ast.Name(id="cand", ctx=ast.Load())
            ast.fix_missing_locations(node)
            for s, v in ip.getattr_(st, ref, pat.value, node, default=BoolV(False)):
                if isinstance(v, Raised):
                    continue
                for s2, t in ip.truth(s, v, node):
                    if t is True:
                        sh = shape_of(s2, ref)
                        sh.cal = shape.cal
                        sh.sources = shape.sources
                        res.append(sh)
        except PathLimit:
            self.errors.append("path limit in predicate {} on {}".format(pat.value, shape.describe()))
        finally:
            ip.cur_mod.pop()
            ip.cur_func.pop()
            ip.cur_fnode.pop()
        # merge refined shapes with equal keys
        merged = {}
        for sh in res:
            k = sh.key()
            merged[k] = join_shapes(merged[k], sh) if k in merged else sh
        return list(merged.values())

    # ------------------------------------------------------------------
    def run_rule(self, rule, shapes):
        ip = self.interp
        st = State()
        st.frames.append({})
        args = [ts_value()]
        names = rule.params[1:]
        for i, (pat, sh) in enumerate(zip(rule.pats, shapes)):
            pname = names[i] if i < len(names) else "arg{}".format(i)
            sym = ("param", i, pname)
            if pat.kind == "regex":
                args.append(self.regex_match_obj(st, pat, sym))
            else:
                args.append(self.materialise(st, sh, sym))
        ip.cur_mod.append(rule.mod)
        ip.cur_func.append(rule.name)
        ip.cur_fnode.append(rule.node)
        ip.paths = 0
        ip.site_counter = 0
        try:
            fv = FuncV(rule.mod, rule.node)
            outs = ip.call_rule_wrapper(st, fv, args, rule.node)
            paths = [PathResult(s, oc) for s, oc in outs]
            return RuleRun(rule, shapes, paths)
        except PathLimit:
            return RuleRun(rule, shapes, [], error="path limit exceeded")
        finally:
            ip.cur_mod.pop()
            ip.cur_func.pop()
            ip.cur_fnode.pop()

    def add_shape(self, sh, source):
        changed = False
        # nested shapes (Interval ends) are reachable values too only through their
        # container; they are not added on their own
        k = sh.key()
        sh.sources = set(sh.sources) | {source}
        if k in self.R:
            old = self.R[k]
            j = join_shapes(old, sh)
            if j.fingerprint() != old.fingerprint() or j.sources != old.sources:
                changed = j.fingerprint() != old.fingerprint()
                self.R[k] = j
        else:
            self.R[k] = sh
            changed = True
        return changed

    def fixpoint(self):
        rules = self.rb.rules
        for rnd in range(MAX_ROUNDS):
            self.rounds = rnd + 1
            changed = False
            for ri, rule in enumerate(rules):
                if any(p.kind == "unknown" for p in rule.pats):
                    continue
                if len(rule.params) != len(rule.pats) + 1:
                    self.runs[(rule.name, ri, "arity")] = RuleRun(
                        rule, [], [], error="parameter count {} != pattern count {} + 1".format(
                            len(rule.params), len(rule.pats)))
                    continue
                cands = [self.candidates(p) for p in rule.pats]
                if any(not c for c in cands):
                    continue
                for combo in itertools.product(*cands):
                    mk = (rule.name, ri, tuple(None if s is None else s.fingerprint() for s in combo))
                    if mk in self.runs:
                        continue
                    run = self.run_rule(rule, list(combo))
                    self.runs[mk] = run
                    for p in run.paths:
                        if p.kind == "ret" and isinstance(p.val, RefV):
                            sh = shape_of(p.st, p.val)
                            self.fired[rule.name] = self.fired.get(rule.name, 0) + 1
                            if self.add_shape(sh, rule.name):
                                changed = True
            if not changed:
                break
        else:
            self.errors.append("rule-base fixpoint did not stabilise in {} rounds".format(MAX_ROUNDS))
        # keep only runs whose inputs are current shapes
        cur = {}
        for ri, rule in enumerate(rules):
            cands = [self.candidates(p) for p in rule.pats]
            if any(not c for c in cands):
                continue
            for combo in itertools.product(*cands):
                mk = (rule.name, ri, tuple(None if s is None else s.fingerprint() for s in combo))
                if mk in self.runs:
                    cur[mk] = self.runs[mk]
        for mk, run in self.runs.items():
            if run.error and mk not in cur:
                cur[mk] = run
        self.runs = cur
        self._feed_graph()
        return self

    def _feed_graph(self):
        for ri, rule in enumerate(self.rb.rules):
            for i, pat in enumerate(rule.pats):
                if pat.kind == "regex":
                    continue
                for sh in self.candidates(pat):
                    for src in sh.sources:
                        self.feed.setdefault((src, rule.name), set()).add(i)

    # ------------------------------------------------------------------
    def run_function(self, modname, qual, args_builder, label):
        """Interpret a package function on arguments built by args_builder(state)."""
        ip = self.interp
        mod = self.model.mod(modname)
        fnode = mod.func(qual)
        st = State()
        st.frames.append({})
        args = args_builder(st)
        ip.cur_mod.append(mod)
        ip.cur_func.append(label)
        ip.cur_fnode.append(fnode)
        ip.paths = 0
        try:
            outs = ip.call_func(FuncV(mod, fnode), args, {}, st, fnode)
            return [PathResult(s, oc) for s, oc in outs], None
        except PathLimit:
            return [], "path limit exceeded"
        finally:
            ip.cur_mod.pop()
            ip.cur_func.pop()
            ip.cur_fnode.pop()

    def run_accessor(self, shape, attr):
        ip = self.interp
        st = State()
        st.frames.append({})
        ref = self.materialise(st, shape, ("emitted",))
        ip.cur_mod.append(self.types_mod)
        ip.cur_func.append("<accessor {}>".format(attr))
        ip.cur_fnode.append(None)
        ip.paths = 0
        node = ast.Attribute(value=ast.Name(id="emitted", ctx=ast.Load()), attr=attr, ctx=ast.Load())
        ast.fix_missing_locations(node)
        try:
            outs = ip.getattr_(st, ref, attr, node)
            return [(s, v) for s, v in outs], None
        except PathLimit:
            return [], "path limit exceeded"
        finally:
            ip.cur_mod.pop()
            ip.cur_func.pop()
            ip.cur_fnode.pop()

    def latent_layer(self):
        """Apply ctparse.time.postprocess_latent.apply_postprocessing_rules to every
        reachable shape."""
        lm = "ctparse.time.postprocess_latent"
        mod = self.model.mod(lm)
        if "apply_postprocessing_rules" not in mod.funcs:
            raise AnalysisError("anchor vanished: apply_postprocessing_rules")
        for key, shape in sorted(self.R.items(), key=lambda kv: repr(kv[0])):
            def build(st, shape=shape):
                return [ts_value(), self.materialise(st, shape, ("param", 0, "art"))]
            paths, err = self.run_function(lm, "apply_postprocessing_rules", build,
                                           "apply_postprocessing_rules")
            self.latent[key] = (shape, paths, err)
        return self.latent


def _on_construct(ip, st, obj, node):
    a = obj.attrs
    if not ip.is_subclass(obj.cls, "Artifact"):
        # a helper object that merely carries numbers (validated before a resolution is built from
        # them): the calendar obligation is about resolutions
        obj.cal = "NA"
        return
    if "month" in a and "day" in a:
        m, d = a.get("month"), a.get("day")
        y = a.get("year")
        if isinstance(m, IntV) and isinstance(d, IntV):
            if isinstance(y, IntV):
                status = ip.calendar_status(st, y, m, d)
            else:
                status = _doy_status(ip, st, m, d)
            if status == "UNCHECKED" and isinstance(y, IntV) and _same_datetime_day(st, y, m, d):
                status = "REAL"
            if status == "UNCHECKED":
                # no provenance argument: decide by evaluating the path condition over
                # every (year, month, day) the fields can take on this path
                sem = _semantic_calendar(ip, st, y if isinstance(y, IntV) else None, m, d)
                if sem is True:
                    status = "CHECKED"
                elif sem is None:
                    # a condition of this path that speaks about these fields is outside the
                    # evaluable fragment (or the domain is too large): neither valid nor invalid
                    status = "UNKNOWN"
                    ip.note_cal_unknown(node, "calendar validity of the assembled date was not decided (a path "
                                        "condition outside the evaluable fragment, or too many combinations)")
            obj.cal = {"CONST-OK": "REAL", "CONST-BAD": "UNCHECKED"}.get(status, status)
        else:
            obj.cal = "NA"


def _same_datetime_day(st, y, m, d):
    """year and month are fields of one datetime value D and, on this path, the day is known to
    equal D's day: the triple is D's own date"""
    ys, ms = y.sym, m.sym
    if not (isinstance(ys, tuple) and isinstance(ms, tuple) and len(ys) == 3 and len(ms) == 3
            and ys[0] == ms[0] == "dtfield" and ys[1] == ms[1] and ys[2] == "year" and ms[2] == "month"):
        return False
    want = ("dtfield", ys[1], "day")
    for c, t in st.conds:
        if t is True and isinstance(c, tuple) and len(c) == 4 and c[0] == "cmp" and c[1] == "Eq" \
                and {c[2], c[3]} == {want, d.sym}:
            return True
        if t is False and isinstance(c, tuple) and len(c) == 4 and c[0] == "cmp" and c[1] == "NotEq" \
                and {c[2], c[3]} == {want, d.sym}:
            return True
    return False


YEAR_SAMPLES = (1, 4, 19, 20, 96, 99, 100, 1800, 1900, 1996, 1999, 2000, 2019, 2020, 2023, 2024, 2029,
                2100, 2196, 2199, 2200, 2400)


_TS_DOMAIN = None


class _Sampled(list):
    """a domain that is a sample of the values, not all of them"""


def _leaf_domain(ip, st, leaf):
    """Values a leaf of a summary term can take: (list, complete?)"""
    from . import e2_regex as _e2
    lo = hi = None
    if leaf[0] == "int" and leaf[1][0] == "group":
        _, P = ip.ctx.wrapped(leaf[1][1])
        rng = _e2.int_range_of_group(P, leaf[1][2])
        if rng is None:
            return None
        lo, hi = rng
        name = leaf[1][2]
    elif leaf[0] == "attr":
        name = leaf[2]
        for o in st.heap.values():
            if o.sym == leaf[1]:
                v = o.attrs.get(leaf[2])
                if isinstance(v, IntV):
                    lo, hi = v.lo, v.hi
        if lo is None:
            return None
    elif leaf == ("ts",):
        # reference times: a sample (month ends, leap days, year ends and a stride through two
        # years); enough to exhibit a witness, not to prove validity for every reference time
        # reference times: every day of a leap year, of its neighbours, of the years around the
        # non-leap century 2100 and of the first year of the range, at three times of day.  Whether
        # a date assembled from the reference time and a bounded offset exists depends on the
        # reference time only through its month, its day and the leap status of the years it can
        # reach; those combinations are all in this domain (assumption A6, DESIGN 9)
        global _TS_DOMAIN
        if _TS_DOMAIN is None:
            import datetime as _dtm
            out = []
            for yr in (1970, 2019, 2020, 2021, 2023, 2024, 2099, 2100):
                d0 = _dtm.date(yr, 1, 1)
                while d0.year == yr:
                    for hh, mi, ss in ((0, 0, 0), (9, 15, 30), (23, 59, 59)):
                        out.append(_dtm.datetime(d0.year, d0.month, d0.day, hh, mi, ss))
                    d0 += _dtm.timedelta(days=1)
            _TS_DOMAIN = out
        return list(_TS_DOMAIN)
    else:
        return None
    if hi - lo <= 64:
        return list(range(int(lo), int(hi) + 1))
    return sorted({int(x) for x in YEAR_SAMPLES if lo <= x <= hi} | {int(lo), int(min(hi, 10 ** 6))})


def _semantic_calendar(ip, st, y, m, d):
    """True: every (year, month, day) the fields can take on this path is a real date; False: some
    valuation that satisfies every condition of the path is not a date; None: not decided (a
    condition about these values cannot be evaluated, or the domain is too large)."""
    import datetime as _dtm
    import itertools
    from . import e4_order as e4
    from .checks.relspec import leaves_of
    from .core import Undecided
    terms = [y.sym if y is not None else None, m.sym, d.sym]
    leaves = set()
    for t in terms:
        if t is not None:
            leaves_of(t, leaves)
    base_leaves = set(leaves)
    # conditions that speak about these values (directly, or through another value they are
    # compared with); conditions about unrelated values only widen the set of valuations when
    # dropped, which is sound for "every valuation is a real date"
    pending = []
    for c, t in st.conds:
        lc = set()
        leaves_of(c, lc)
        pending.append((c, t, lc))
    conds = []
    unknown = False
    for _round in range(3):
        rest = []
        for c, t, lc in pending:
            if lc and (lc & leaves):
                if len(leaves | lc) <= 8:
                    leaves |= lc
                    conds.append((c, t))
                else:
                    unknown = True
            else:
                rest.append((c, t, lc))
        pending = rest
    # dates that are known to be real (parameters produced by other rules, checked values): their
    # own day is within their month
    for o in st.heap.values():
        if o.cal in ("REAL", "CHECKED") and isinstance(o.sym, tuple):
            ys_, ms_, ds_ = ("attr", o.sym, "year"), ("attr", o.sym, "month"), ("attr", o.sym, "day")
            if ms_ in leaves and ds_ in leaves:
                if ys_ in leaves:
                    conds.append((("validdate", ys_, ms_, ds_), True))
                else:
                    conds.append((("validdate", ("const", 2000), ms_, ds_), True))
    order = sorted(base_leaves, key=repr) + sorted(leaves - base_leaves, key=repr)
    nb = len(base_leaves)
    index = {l: i for i, l in enumerate(order)}
    base_conds, extra_conds = [], []
    for c, t in conds:
        try:
            e4._code(c, index)
        except Undecided:
            unknown = True
            continue
        lc = set()
        leaves_of(c, lc)
        (base_conds if lc <= base_leaves else extra_conds).append((c, t))
    doms = []
    size = 1
    for l in order:
        dm = _leaf_domain(ip, st, l)
        if dm is None:
            if l in base_leaves:
                return None
            unknown = True
            dm = [None]
        doms.append(dm)
    for dm in doms[:nb]:
        size *= max(len(dm), 1)
        if size > 400000:
            return None
    xsize = 1
    for dm in doms[nb:]:
        xsize *= max(len(dm), 1)
    try:
        f = e4.compile_path(base_conds, terms, order)
        g = e4.compile_path(base_conds + extra_conds, terms, order) if extra_conds else None
    except Undecided:
        return None
    pad = [dm[0] for dm in doms[nb:]]
    n = 0
    checked_extra = 0
    for combo in itertools.product(*doms[:nb]):
        r = f(list(combo) + pad)
        if r is None:
            continue
        n += 1
        yy, mm, dd = r
        try:
            _dtm.date(int(yy) if yy is not None else 2000, int(mm), int(dd))
            continue
        except (ValueError, TypeError, OverflowError):
            pass
        # a valuation of the date fields that is not a date and passes every condition on them
        # alone: is it also consistent with the conditions that relate them to other values?
        if g is None:
            return None if unknown else False
        if xsize > 200000 or checked_extra > 200:
            return None
        checked_extra += 1
        sat = False
        for extra in itertools.product(*doms[nb:]):
            if g(list(combo) + list(extra)) is not None:
                sat = True
                break
        if sat:
            return None if unknown else False
    if n == 0:
        return None
    if any(isinstance(dm, _Sampled) for dm in doms):
        return None      # no witness among the sampled reference times: not a proof
    return True


def _doy_status(ip, st, m, d):
    if d.hi <= 29:
        return "REAL"
    for (cy, cm, cd) in st.checked:
        if cm == m.sym and cd == d.sym:
            return "CHECKED"
    srcs = set()
    for fld, v in (("month", m), ("day", d)):
        s = v.sym
        if isinstance(s, tuple) and len(s) == 3 and s[0] in ("dtfield", "attr") and s[2] == fld:
            srcs.add((s[0], s[1]))
        else:
            return "UNCHECKED"
    if len(srcs) == 1:
        kind, src = next(iter(srcs))
        if kind == "dtfield":
            return "REAL"
        for o in st.heap.values():
            if o.sym == src:
                return "REAL" if o.cal in ("REAL", "CHECKED", "NA") else "UNCHECKED"
    return "UNCHECKED"


def ts_value():
    """The reference time: a datetime whose year lies in the range the properties
    quantify over (1970-2100); every other field is unconstrained."""
    return DTV(("ts",), fields={"year": IntV(1970, 2100, ("dtfield", ("ts",), "year"))})


def get_engine(ctx):
    def build():
        e = Engine(ctx)
        n0 = TopV.count
        e.fixpoint()
        e.latent_layer()
        seen = []
        for ent in getattr(e.interp, "undecided_log", {}).values():
            seen.append("{} {}: {}".format(ent[0], ent[1], ent[2]))
        for err in e.errors:
            seen.append("engine: " + str(err))
        partial = []
        for run in e._runs.values():
            if run.error:
                # a run that was cut short (path limit): paths and shapes are missing, none is wrong
                if "path limit" in str(run.error):
                    msg = "{}: {}".format(run.rule.name, run.error)
                    if msg not in partial:
                        partial.append(msg)
                else:
                    seen.append("{}: {}".format(run.rule.name, run.error))
        e.partial = partial
        for key, (_sh, _paths, err) in e._latent.items():
            if err:
                seen.append("latent layer {}: {}".format(key, err))
        if not seen and TopV.count > n0:
            for why in TopV.recent[-min(TopV.count - n0, len(TopV.recent)):]:
                if "unknown value: " + why not in seen:
                    seen.append("unknown value: " + why)
        e.incomplete = seen
        e.consulted = False
        return e
    return ctx.memo("e3", build)
