#!/venv/bin/python
"""Regenerates DESIGN.md §10.6 (table of seeded changes) from seeded/*/meta.json and
seeded/unbiased_first_pass.log, and re-adds the derived fields to each meta.json."""
import glob
import json
import os
import re

VERIF = os.path.dirname(os.path.dirname(os.path.abspath(__file__)))
WHY = {
    "C15-r2-1": "completeness of the rule pre-filter (a per-call cache keyed by the *set* of pattern ids): "
                "search completeness is declared not decided",
    "C15-r2-2": "completeness of the sequence enumeration (gap test rejects the two blanks left by a stripped "
                "label): declared not decided",
    "C17-2": "monotonicity under duplication (min_df pruning): declared not decided (C16/C17)",
    "C17-r2-2": "monotonicity under duplication (max_df pruning): declared not decided (C16/C17)",
    "C20-r2-2": "initial scoring moved below the coverage filter so the depth cut keeps arbitrary sequences: a "
                "ranking effect, not decided by C20; reported by C14 `depth cut after sort`",
}


def main():
    ub = {}
    p = os.path.join(VERIF, "seeded", "unbiased_first_pass.log")
    for line in open(p):
        parts = line.split()
        if len(parts) == 2:
            ub[parts[0]] = int(parts[1])
    rows = []
    for d in sorted(glob.glob(os.path.join(VERIF, "seeded", "*", ""))):
        m = json.load(open(d + "meta.json"))
        name = os.path.basename(d.rstrip("/"))
        notes = open(d + "notes.md").read() if os.path.exists(d + "notes.md") else ""
        first = [l.strip(" -*") for l in notes.splitlines() if l.strip() and not l.startswith("#")]
        m["needs_to_manifest"] = " ".join(first[:3])[:500]
        m["own_check_before_strengthening"] = {1: "VIOLATION", 0: "silent", 2: "analysis incomplete"}.get(
            ub.get(name), "n/a")
        m["round"] = 2 if "-r2-" in name else 1
        json.dump(m, open(d + "meta.json", "w"), indent=1)
        rows.append((name, m))

    def files(name):
        txt = open(os.path.join(VERIF, "seeded", name, "patch.diff")).read()
        return ", ".join(f.replace("ctparse/", "") for f in sorted(set(re.findall(r"^\+\+\+ b/(\S+)", txt, re.M))))
    n_before = sum(1 for n, m in rows if m["own_check_before_strengthening"] == "VIOLATION")
    n1 = sum(1 for n, m in rows if m["own_check_before_strengthening"] == "VIOLATION" and m["round"] == 1)
    n_now = sum(1 for n, m in rows if m["detected_by_own_property_check"])
    out = ["| seed | files touched | own check before / now | other checks reporting now | remark |",
           "|------|---------------|------------------------|----------------------------|--------|"]
    for name, m in rows:
        others = [c for c in m["checks_reporting_violation"] if c != m["property"]]
        out.append("| {} | {} | {} / {} | {} | {} |".format(
            name, files(name), m["own_check_before_strengthening"],
            "VIOLATION" if m["detected_by_own_property_check"] else "silent", " ".join(others) or "—",
            WHY.get(name, "") + (" analysis incomplete in {}".format(m["checks_analysis_incomplete"])
                                 if m["checks_analysis_incomplete"] else "")))
    s = open(os.path.join(VERIF, "DESIGN.md")).read()
    a = s.index("| seed | files touched |")
    b = s.index("\n\n", a)
    s = s[:a] + "\n".join(out) + s[b:]
    s = re.sub(r"check reported \d+ of the 76 changes \(\d+ in round 1, \d+ in round 2\)",
               "check reported {} of the 76 changes ({} in round 1, {} in round 2)".format(n_before, n1, n_before - n1), s)
    s = re.sub(r"the own check reports \d+ of 76\. The \d+ that remain",
               "the own check reports {} of 76. The {} that remain".format(n_now, 76 - n_now), s)
    open(os.path.join(VERIF, "DESIGN.md"), "w").write(s)
    print(len(rows), "seeds; own check before", n_before, "now", n_now)


if __name__ == "__main__":
    main()
