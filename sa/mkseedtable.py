#!/venv/bin/python
"""Regenerates DESIGN.md §10.6 (table of seeded changes) from seeded/*/meta.json and
seeded/unbiased_first_pass.log, and re-adds the derived fields to each meta.json."""
import glob
import json
import os
import re

VERIF = os.path.dirname(os.path.dirname(os.path.abspath(__file__)))
WHY = {
    "C15-r2-1": "completeness of the rule pre-filter (a per-call cache keyed by the *set* of pattern ids): "
                "search completeness is declared not decided",
    "C15-r2-2": "completeness of the sequence enumeration (gap test rejects the two blanks left by a stripped "
                "label): declared not decided",
    "C17-2": "monotonicity under duplication (min_df pruning): declared not decided (C16/C17)",
    "C17-r2-2": "monotonicity under duplication (max_df pruning): declared not decided (C16/C17)",
    "C15-r3-1": "completeness of the rule pre-filter (an index by regex id keeps only the last occurrence): search "
                "completeness is declared not decided",
    "C17-r3-2": "monotonicity under duplication (class priors swapped in the estimator): numeric behaviour of the "
                "estimator, declared not decided (C16/C17)",
    "C01-r3-2": "`next()` over a 12-month generator search can be exhausted: the interpreter runs out of its path "
                "budget on the generator (exit 2, no verdict); deciding it needs calendar arithmetic over the window",
    "C10-r3-1": "labels and text cleaning merged into one tuple-returning helper that removes markers with "
                "`str.replace`: outside the provenance terms (exit 2, no verdict)",
    "C19-r3-2": "productions registered by `rule(...)(helper(f))` at module level: the rule table can no longer be "
                "read off decorators (every rule-base check exits 2, no verdict)",
    "C18-r3-1": "`__eq__`/`__hash__` rebuilt on a helper that flattens nested values: interpreting the new `__eq__` on two "
                "abstract instances exceeds the path budget (exit 2). An earlier version of the check reported this "
                "seed through a syntactic mismatch of the attribute lists read by `__eq__` and `__hash__`; that rule "
                "also fired on a behaviour-preserving refactoring and was replaced (10.7 item 26)",
    "C20-r3-2": "`datetime == date` is always False in the shared weekday helper; reported by C03 (weekday never the "
                "reference day), which is the clause actually broken; C20 compares compositions and is not affected",
    "C01-r4-1": "`datetime.timedelta(days=N)` overflows in its *constructor* for N >= 1e9, outside the guarded addition: "
                "E3 models the overflow of `datetime + delta` and of `relativedelta`, not of the `timedelta` constructor",
    "C01-r4-2": "`max((p.score, p) ...)` compares the candidates themselves on tied scores (TypeError): reported by C14 "
                "(`selection`: the ordering is not the score), which shares the anchor; C01 does not model tuple ordering "
                "falling through to unordered objects",
    "C04-r4-1": "`for year in range(year, year + 9)` in a new search helper: a range with symbolic bounds is outside the "
                "interpreter's loop model (exit 2, no verdict)",
    "C04-r4-2": "rrule search replaced by a hand-written month-stepping loop with a 14-month bound: the search idiom is not "
                "recognised (exit 2, no verdict); C05's non-interference clause reports the clipped day the fallback returns",
    "C11-r4-2": "ASCII fast path through `str.translate`/`split`/`join`: not a chain of the two substitutions the class "
                "comparison follows (exit 2, no verdict)",
    "C14-r4-2": "emission loop rewritten as list steps (score all, filter all, then record): the re-emission guard is no "
                "longer found per element (instance count below floor, exit 2, no verdict)",
    "C15-r4-2": "completeness of the sequence enumeration (an early `break` in the adjacency loop assumes single-blank "
                "separators; a stripped label leaves two): declared not decided",
    "C17-r4-2": "training samples collapsed with multiplicities, the first label seen kept per token sequence: numeric "
                "behaviour of the training pipeline, declared not decided (C16/C17)",
    "C20-r4-2": "`overlapped=True` dropped from the matcher: reported by C15 (`all overlapping matches`), the clause actually "
                "broken; C20 compares compositions of the matches it is given",
    "C20-r2-2": "initial scoring moved below the coverage filter so the depth cut keeps arbitrary sequences: a "
                "ranking effect, not decided by C20; reported by C14 `depth cut after sort`",
}


def main():
    ub = {}
    p = os.path.join(VERIF, "seeded", "unbiased_first_pass.log")
    for line in open(p):
        parts = line.split()
        if len(parts) == 2:
            ub[parts[0]] = int(parts[1])
    rows = []
    for d in sorted(glob.glob(os.path.join(VERIF, "seeded", "C*", ""))):
        m = json.load(open(d + "meta.json"))
        name = os.path.basename(d.rstrip("/"))
        notes = open(d + "notes.md").read() if os.path.exists(d + "notes.md") else ""
        first = [l.strip(" -*") for l in notes.splitlines() if l.strip() and not l.startswith("#")]
        m["needs_to_manifest"] = " ".join(first[:3])[:500]
        m["own_check_before_strengthening"] = {1: "VIOLATION", 0: "silent", 2: "analysis incomplete"}.get(
            ub.get(name), "n/a")
        rm = re.search(r"-r(\d+)-", name)
        m["round"] = int(rm.group(1)) if rm else 1
        json.dump(m, open(d + "meta.json", "w"), indent=1)
        rows.append((name, m))

    def files(name):
        txt = open(os.path.join(VERIF, "seeded", name, "patch.diff")).read()
        return ", ".join(f.replace("ctparse/", "") for f in sorted(set(re.findall(r"^\+\+\+ b/(\S+)", txt, re.M))))
    total = len(rows)
    rounds = sorted({m["round"] for n, m in rows})

    def cnt(pred, rnd=None):
        return sum(1 for n, m in rows if pred(m) and (rnd is None or m["round"] == rnd))
    n_before = cnt(lambda m: m["own_check_before_strengthening"] == "VIOLATION")
    n_inc_before = cnt(lambda m: m["own_check_before_strengthening"] == "analysis incomplete")
    n_now = cnt(lambda m: m["detected_by_own_property_check"])
    n_inc_now = cnt(lambda m: not m["detected_by_own_property_check"] and m["property"] in m["checks_analysis_incomplete"])
    stats = ("Measured against the snapshot of `/verif` that existed *before* the respective round was read "
             "(`seeded/unbiased_first_pass.log`: round 1 against commit aeb5af4, round 2 against a29a19e, round 3 "
             "against 082ffc4, round 4 against e5fdcf2), the property's own check reported {} of the {} changes ({}), {} more ended without a "
             "verdict (exit 2) and the rest were silent. The misses were read, generalised into rules (never into "
             "matches on the seeded text) and the checks strengthened; with the committed checks the own check "
             "reports {} of {} ({}), {} end without a verdict (exit 2: the analysis says it cannot decide that tree, "
             "which is not a detection and is not counted as one), and {} are silent. Those are listed with the "
             "reason; none is claimed.").format(
        n_before, total, ", ".join("{} of {} in round {}".format(
            cnt(lambda m: m["own_check_before_strengthening"] == "VIOLATION", r), cnt(lambda m: True, r), r) for r in rounds),
        n_inc_before, n_now, total, ", ".join("{} in round {}".format(
            cnt(lambda m: m["detected_by_own_property_check"], r), r) for r in rounds),
        n_inc_now, total - n_now - n_inc_now)
    out = ["| seed | files touched | own check before / now | other checks reporting now | remark |",
           "|------|---------------|------------------------|----------------------------|--------|"]
    for name, m in rows:
        others = [c for c in m["checks_reporting_violation"] if c != m["property"]]
        out.append("| {} | {} | {} / {} | {} | {} |".format(
            name, files(name), m["own_check_before_strengthening"],
            "VIOLATION" if m["detected_by_own_property_check"] else
            ("no verdict (exit 2)" if m["property"] in m["checks_analysis_incomplete"] else "silent"),
            " ".join(others) or "—",
            WHY.get(name, "") + (" [no verdict from: {}]".format(" ".join(
                c for c in m["checks_analysis_incomplete"] if c != m["property"]))
                if [c for c in m["checks_analysis_incomplete"] if c != m["property"]] else "")))
    s = open(os.path.join(VERIF, "DESIGN.md")).read()
    a = s.index("| seed | files touched |")
    b = s.index("\n\n", a)
    s = s[:a] + "\n".join(out) + s[b:]
    a = s.index("<!-- seedstats:begin -->") + len("<!-- seedstats:begin -->")
    b = s.index("<!-- seedstats:end -->")
    s = s[:a] + "\n**Honest numbers.** " + stats + "\n" + s[b:]
    open(os.path.join(VERIF, "DESIGN.md"), "w").write(s)
    print(len(rows), "seeds; own check before", n_before, "now", n_now, "no verdict now", n_inc_now)


if __name__ == "__main__":
    main()
